//! A pool of real macro callsites over levels x targets {"a","a::b","ab","b"} x {event, span, probe}.
macro_rules! pool4 {
    ($( $i:literal : $lvl:ident $tgt:literal ),* $(,)?) => {
        pub fn emit_event(lvl: u64, tgt: &str) {
            $( if lvl == $i && tgt == $tgt { tracing::event!(target: $tgt, tracing::Level::$lvl, "e"); return; } )*
            panic!("no event callsite {lvl} {tgt}");
        }
        pub fn emit_event_child(lvl: u64, tgt: &str, parent: &tracing::Span) {
            $( if lvl == $i && tgt == $tgt { tracing::event!(target: $tgt, parent: parent, tracing::Level::$lvl, "e"); return; } )*
            panic!("no child event callsite {lvl} {tgt}");
        }
        pub fn emit_span(lvl: u64, tgt: &str, k: u64) -> tracing::Span {
            $( if lvl == $i && tgt == $tgt { return tracing::span!(target: $tgt, tracing::Level::$lvl, "s", k = k); } )*
            panic!("no span callsite {lvl} {tgt}");
        }
        pub fn probe(lvl: u64, tgt: &str) -> bool {
            $( if lvl == $i && tgt == $tgt { return tracing::enabled!(target: $tgt, tracing::Level::$lvl); } )*
            panic!("no probe callsite {lvl} {tgt}");
        }
    };
}
pool4! {
    1: ERROR "a", 2: WARN "a", 3: INFO "a", 4: DEBUG "a", 5: TRACE "a",
    1: ERROR "a::b", 2: WARN "a::b", 3: INFO "a::b", 4: DEBUG "a::b", 5: TRACE "a::b",
    1: ERROR "ab", 2: WARN "ab", 3: INFO "ab", 4: DEBUG "ab", 5: TRACE "ab",
    1: ERROR "b", 2: WARN "b", 3: INFO "b", 4: DEBUG "b", 5: TRACE "b",
}
pub const TARGETS: [&str; 4] = ["a", "a::b", "ab", "b"];
