//! Persistent worker threads executing one operation at a time on behalf of the driver, so that a
//! multi-threaded history runs in exactly the global order the behaviour prescribes.
use std::collections::HashMap;
use std::sync::mpsc::{channel, Sender};

type Job<C> = Box<dyn FnOnce(&mut C) + Send>;

pub struct Workers<C: 'static> {
    txs: HashMap<u64, Sender<Job<C>>>,
    handles: Vec<std::thread::JoinHandle<()>>,
    make: fn() -> C,
}

impl<C: 'static> Workers<C> {
    pub fn new(make: fn() -> C) -> Self {
        Workers { txs: HashMap::new(), handles: vec![], make }
    }
    fn ensure(&mut self, t: u64) {
        if self.txs.contains_key(&t) {
            return;
        }
        let (tx, rx) = channel::<Job<C>>();
        let make = self.make;
        self.handles.push(
            std::thread::Builder::new()
                .name(format!("vt{t}"))
                .spawn(move || {
                    crate::rec::VT.with(|v| v.set(t));
                    let mut ctx = make();
                    while let Ok(job) = rx.recv() {
                        job(&mut ctx);
                    }
                })
                .unwrap(),
        );
        self.txs.insert(t, tx);
    }
    /// Run `f` on worker `t` and wait for its result. A panic inside `f` is returned as Err.
    pub fn run<R: Send + 'static>(&mut self, t: u64, f: impl FnOnce(&mut C) -> R + Send + 'static) -> Result<R, String> {
        self.ensure(t);
        let (rtx, rrx) = channel();
        let job: Job<C> = Box::new(move |c| {
            let r = crate::catch(|| f(c));
            let _ = rtx.send(r);
        });
        self.txs[&t].send(job).unwrap();
        rrx.recv().unwrap_or_else(|_| Err("worker died".into()))
    }
    /// Start `f` on worker `t` without waiting: the receiver yields its result once it is done (the operation may park at
    /// a gate the driver controls; until then no other job may be sent to this worker).
    pub fn spawn<R: Send + 'static>(&mut self, t: u64, f: impl FnOnce(&mut C) -> R + Send + 'static) -> std::sync::mpsc::Receiver<Result<R, String>> {
        self.ensure(t);
        let (rtx, rrx) = channel();
        let job: Job<C> = Box::new(move |c| {
            let r = crate::catch(|| f(c));
            let _ = rtx.send(r);
        });
        self.txs[&t].send(job).unwrap();
        rrx
    }
    /// Stop worker `t` (its context is dropped on that thread) and wait for it.
    pub fn stop_all(&mut self) {
        self.txs.clear();
        for h in self.handles.drain(..) {
            let _ = h.join();
        }
    }
}
