//! Builds real tracing-subscriber filters from the expression records of spec/Filters, plus a
//! `Spy` wrapper that logs what the wrapped filter publishes and decides while always answering
//! `sometimes` / no hint itself, so that the filter is consulted on every emission.
use serde_json::{json, Value};
use std::sync::atomic::{AtomicBool, Ordering};
use tracing_core::{collect::Interest, span, Collect, Event, LevelFilter, Metadata};
use tracing_subscriber::filter::{dynamic_filter_fn, filter_fn, FilterExt, Targets};
use tracing_subscriber::registry::LookupSpan;
use tracing_subscriber::subscribe::{Context, Filter};

use crate::rec::{filter_of_rank, rank, rank_of_filter, Log};

pub static FLAG_P: AtomicBool = AtomicBool::new(false);
pub static FLAG_Q: AtomicBool = AtomicBool::new(false);
pub fn flag(name: &str) -> bool {
    match name {
        "p" => FLAG_P.load(Ordering::SeqCst),
        "q" => FLAG_Q.load(Ordering::SeqCst),
        _ => true,
    }
}
pub fn set_flags(ctx: &Value) {
    let on = |n: &str| ctx.as_array().map(|a| a.iter().any(|x| x == n)).unwrap_or(false);
    FLAG_P.store(on("p"), Ordering::SeqCst);
    FLAG_Q.store(on("q"), Ordering::SeqCst);
}

pub type BoxFilter<C> = Box<dyn Filter<C> + Send + Sync + 'static>;

fn hint_of(v: &Value) -> Option<LevelFilter> {
    match v.as_u64() {
        Some(h) if h <= 5 => Some(filter_of_rank(h)),
        _ => None,
    }
}

pub fn build<C>(f: &Value) -> BoxFilter<C>
where
    C: Collect + for<'a> LookupSpan<'a> + 'static,
{
    match f["k"].as_str().unwrap() {
        "level" => Box::new(filter_of_rank(f["l"].as_u64().unwrap())),
        "targets" => {
            let mut t = Targets::new();
            for d in f["dirs"].as_array().map(|a| a.as_slice()).unwrap_or(&[]) {
                let name = d["t"].as_str().unwrap();
                let lvl = filter_of_rank(d["l"].as_u64().unwrap());
                t = if name.is_empty() { t.with_default(lvl) } else { t.with_target(name, lvl) };
            }
            Box::new(t)
        }
        "fn" => {
            let l = f["l"].as_u64().unwrap();
            let tgt = f["tgt"].as_str().unwrap().to_string();
            let ff = filter_fn(move |m: &Metadata<'_>| rank(m.level()) <= l && (tgt == "*" || m.target() == tgt));
            match hint_of(&f["hint"]) {
                Some(h) => Box::new(ff.with_max_level_hint(h)),
                None => Box::new(ff),
            }
        }
        "dyn" => {
            let l = f["l"].as_u64().unwrap();
            let fl = f["flag"].as_str().unwrap().to_string();
            let ff = dynamic_filter_fn(move |m: &Metadata<'_>, _cx: &Context<'_, C>| rank(m.level()) <= l && (fl.is_empty() || flag(&fl)));
            match hint_of(&f["hint"]) {
                Some(h) => Box::new(ff.with_max_level_hint(h)),
                None => Box::new(ff),
            }
        }
        "none" => Box::new(None::<LevelFilter>),
        "some" => Box::new(Some(build::<C>(&f["a"]))),
        "and" => Box::new(build::<C>(&f["a"]).and(build::<C>(&f["b"]))),
        "or" => Box::new(build::<C>(&f["a"]).or(build::<C>(&f["b"]))),
        "not" => Box::new(build::<C>(&f["a"]).not()),
        k => panic!("unknown filter kind {k}"),
    }
}

pub fn interest_name(i: &Interest) -> &'static str {
    if i.is_never() {
        "never"
    } else if i.is_always() {
        "always"
    } else {
        "sometimes"
    }
}
pub fn hint_rank(h: Option<LevelFilter>) -> u64 {
    h.map(|f| rank_of_filter(&f)).unwrap_or(9)
}

pub fn meta_json(m: &Metadata<'_>) -> Value {
    json!({"lvl": rank(m.level()), "tgt": m.target(), "kind": if m.is_span() { "span" } else { "event" }})
}

/// Logs the wrapped filter's answers; itself answers `sometimes` and no hint.
pub struct Spy<C> {
    pub inner: BoxFilter<C>,
    pub log: Log,
}
impl<C> Filter<C> for Spy<C>
where
    C: Collect + for<'a> LookupSpan<'a> + 'static,
{
    fn enabled(&self, m: &Metadata<'_>, cx: &Context<'_, C>) -> bool {
        let r = self.inner.enabled(m, cx);
        self.log.lock().unwrap().push(json!({"spy": "enabled", "m": meta_json(m), "res": r}));
        r
    }
    fn callsite_enabled(&self, m: &'static Metadata<'static>) -> Interest {
        let r = self.inner.callsite_enabled(m);
        self.log.lock().unwrap().push(json!({"spy": "callsite_enabled", "m": meta_json(m), "res": interest_name(&r)}));
        Interest::sometimes()
    }
    fn max_level_hint(&self) -> Option<LevelFilter> {
        None
    }
    fn event_enabled(&self, e: &Event<'_>, cx: &Context<'_, C>) -> bool {
        self.inner.event_enabled(e, cx)
    }
    fn on_new_span(&self, a: &span::Attributes<'_>, id: &span::Id, cx: Context<'_, C>) {
        self.inner.on_new_span(a, id, cx)
    }
    fn on_record(&self, id: &span::Id, v: &span::Record<'_>, cx: Context<'_, C>) {
        self.inner.on_record(id, v, cx)
    }
    fn on_enter(&self, id: &span::Id, cx: Context<'_, C>) {
        self.inner.on_enter(id, cx)
    }
    fn on_exit(&self, id: &span::Id, cx: Context<'_, C>) {
        self.inner.on_exit(id, cx)
    }
    fn on_close(&self, id: span::Id, cx: Context<'_, C>) {
        self.inner.on_close(id, cx)
    }
}
