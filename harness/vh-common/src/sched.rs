//! Cooperative scheduler for schedule properties: managed threads announce every yield point
//! (`point(site)`) and block until the scheduler grants them the next step, so exactly one managed
//! thread runs between two points. A schedule is a sequence of thread choices; when it is exhausted
//! (or names a thread that is not waiting) the lowest-numbered waiting thread runs. The sequence of
//! (thread, site) announcements is a total order of the run.
use std::cell::Cell;
use std::collections::{BTreeMap, BTreeSet, HashMap, VecDeque};
use std::sync::{Condvar, Mutex, OnceLock};
use std::time::Duration;

thread_local! {
    static ME: Cell<u64> = Cell::new(0);
}

#[derive(Default)]
struct State {
    active: bool,
    schedule: VecDeque<u64>,
    managed: BTreeSet<u64>,   // started and not finished
    waiting: BTreeMap<u64, String>, // thread -> the site it announced and waits at
    current: Option<u64>,
    readers: HashMap<String, usize>, // lock name -> read holders (locks announced with `lock:<name>:R+` ...)
    writer: HashMap<String, bool>,
    deadlocked: bool,
    trust_locks: bool,            // use the lock notes to keep a thread from being released into a lock it cannot get
    blocked: BTreeSet<u64>,       // released threads that did not reach their next point in time: blocked on a real lock
    granted_at: Option<std::time::Instant>,
    log: Vec<(u64, String)>,
    expected: usize,          // threads that will join
    joined: usize,
    stalled: bool,
}

struct Sched {
    st: Mutex<State>,
    cv: Condvar,
}
fn sched() -> &'static Sched {
    static S: OnceLock<Sched> = OnceLock::new();
    S.get_or_init(|| Sched { st: Mutex::new(State::default()), cv: Condvar::new() })
}

/// `lock:<name>:R+` -> Some((name, "R+"))
fn lock_site(site: &str) -> Option<(&str, &str)> {
    let rest = site.strip_prefix("lock:")?;
    let i = rest.rfind(':')?;
    Some((&rest[..i], &rest[i + 1..]))
}

fn eligible(st: &State, t: u64) -> bool {
    if !st.trust_locks {
        return true;
    }
    match st.waiting.get(&t).and_then(|s| lock_site(s)) {
        Some((name, "W+")) => st.readers.get(name).copied().unwrap_or(0) == 0 && !st.writer.get(name).copied().unwrap_or(false),
        Some((name, "R+")) => !st.writer.get(name).copied().unwrap_or(false),
        _ => true,
    }
}

fn grant(st: &mut State, t: u64) {
    // a thread released at a lock-acquisition point takes the lock right away
    if let Some(site) = st.waiting.get(&t).cloned() {
        match lock_site(&site) {
            Some((name, "W+")) => {
                st.writer.insert(name.to_string(), true);
            }
            Some((name, "R+")) => {
                *st.readers.entry(name.to_string()).or_insert(0) += 1;
            }
            _ => {}
        }
    }
    st.current = Some(t);
    st.granted_at = Some(std::time::Instant::now());
}

fn pick(st: &mut State) {
    if st.current.is_some() || st.joined < st.expected {
        return;
    }
    // everybody who is still running is waiting at a point?
    if st.waiting.len() + st.blocked.len() != st.managed.len() || st.waiting.is_empty() {
        return;
    }
    while let Some(t) = st.schedule.pop_front() {
        if st.waiting.contains_key(&t) && eligible(st, t) {
            grant(st, t);
            return;
        }
    }
    let next = st.waiting.keys().copied().find(|t| eligible(st, *t));
    match next {
        Some(t) => grant(st, t),
        // a thread marked blocked may be running again by now (the real lock it sat in was released) and about to give up a
        // noted lock the waiting ones need: wait for it to reach its next point (a genuine cycle ends in the 5 s stall)
        None if !st.blocked.is_empty() => {}
        None => {
            // every thread waits for a lock somebody else (also waiting) holds: a real deadlock
            st.deadlocked = true;
            st.active = false;
        }
    }
}

/// Start a scheduled section with `n` managed threads and the given schedule.
pub fn begin(n: usize, schedule: &[u64]) {
    begin_with(n, schedule, true)
}

/// `trust_locks = false`: lock notes are ignored; a released thread that blocks on a real lock is
/// detected by time-out (25 ms without reaching a point) and another thread is released meanwhile.
pub fn begin_with(n: usize, schedule: &[u64], trust_locks: bool) {
    let s = sched();
    let mut st = s.st.lock().unwrap();
    *st = State::default();
    st.trust_locks = trust_locks;
    st.active = true;
    st.expected = n;
    st.schedule = schedule.iter().copied().collect();
}

/// Called by a managed thread first thing; blocks until it is granted its first step.
pub fn enter(t: u64) {
    ME.with(|m| m.set(t));
    let s = sched();
    {
        let mut st = s.st.lock().unwrap();
        st.managed.insert(t);
        st.joined += 1;
    }
    point("start");
}

/// A yield point. No-op on unmanaged threads or outside a scheduled section.
pub fn point(site: &str) {
    let t = ME.with(|m| m.get());
    if t == 0 {
        return;
    }
    let s = sched();
    let mut st = s.st.lock().unwrap();
    if !st.active || !st.managed.contains(&t) {
        return;
    }
    st.log.push((t, site.to_string()));
    match lock_site(site) {
        Some((name, "W-")) => {
            st.writer.insert(name.to_string(), false);
        }
        Some((name, "R-")) => {
            let r = st.readers.entry(name.to_string()).or_insert(0);
            *r = r.saturating_sub(1);
        }
        _ => {}
    }
    st.waiting.insert(t, site.to_string());
    st.blocked.remove(&t);
    if st.current == Some(t) {
        st.current = None;
    }
    pick(&mut st);
    s.cv.notify_all();
    let mut waited = 0u32;
    while st.current != Some(t) {
        let (g, to) = s.cv.wait_timeout(st, Duration::from_millis(10)).unwrap();
        st = g;
        // the released thread has not come back: it sits in a real lock - let somebody else run
        if let (Some(c), Some(at)) = (st.current, st.granted_at) {
            if c != t && at.elapsed() > Duration::from_millis(25) && !st.waiting.contains_key(&c) && st.managed.contains(&c) {
                st.blocked.insert(c);
                st.current = None;
                pick(&mut st);
                s.cv.notify_all();
            }
        }
        if to.timed_out() {
            waited += 1;
            pick(&mut st);
            s.cv.notify_all();
            if waited > 500 {
                // 5 s without a grant: the current thread is blocked outside a point (e.g. on a real lock)
                st.stalled = true;
                st.active = false;
                s.cv.notify_all();
                return;
            }
        }
        if !st.active {
            return;
        }
    }
    st.waiting.remove(&t);
}

/// Called by a managed thread when it is done.
pub fn leave() {
    let t = ME.with(|m| m.get());
    ME.with(|m| m.set(0));
    let s = sched();
    let mut st = s.st.lock().unwrap();
    st.managed.remove(&t);
    st.waiting.remove(&t);
    st.blocked.remove(&t);
    if st.current == Some(t) {
        st.current = None;
    }
    st.log.push((t, "end".to_string()));
    pick(&mut st);
    s.cv.notify_all();
}

/// End the section: returns the announcement log and whether the run stalled or deadlocked.
pub fn end() -> (Vec<(u64, String)>, bool) {
    let s = sched();
    let mut st = s.st.lock().unwrap();
    st.active = false;
    s.cv.notify_all();
    (std::mem::take(&mut st.log), st.stalled || st.deadlocked)
}
pub fn deadlocked() -> bool {
    sched().st.lock().unwrap().deadlocked
}
