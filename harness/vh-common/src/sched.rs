//! Cooperative scheduler for schedule properties: managed threads announce every yield point
//! (`point(site)`) and block until the scheduler grants them the next step, so exactly one managed
//! thread runs between two points. A schedule is a sequence of thread choices; when it is exhausted
//! (or names a thread that is not waiting) the lowest-numbered waiting thread runs. The sequence of
//! (thread, site) announcements is a total order of the run.
use std::cell::Cell;
use std::collections::{BTreeSet, VecDeque};
use std::sync::{Condvar, Mutex, OnceLock};
use std::time::Duration;

thread_local! {
    static ME: Cell<u64> = Cell::new(0);
}

#[derive(Default)]
struct State {
    active: bool,
    schedule: VecDeque<u64>,
    managed: BTreeSet<u64>,   // started and not finished
    waiting: BTreeSet<u64>,
    current: Option<u64>,
    log: Vec<(u64, String)>,
    expected: usize,          // threads that will join
    joined: usize,
    stalled: bool,
}

struct Sched {
    st: Mutex<State>,
    cv: Condvar,
}
fn sched() -> &'static Sched {
    static S: OnceLock<Sched> = OnceLock::new();
    S.get_or_init(|| Sched { st: Mutex::new(State::default()), cv: Condvar::new() })
}

fn pick(st: &mut State) {
    if st.current.is_some() || st.joined < st.expected {
        return;
    }
    // everybody who is still running is waiting at a point?
    if st.waiting.len() != st.managed.len() || st.waiting.is_empty() {
        return;
    }
    while let Some(t) = st.schedule.pop_front() {
        if st.waiting.contains(&t) {
            st.current = Some(t);
            return;
        }
    }
    st.current = st.waiting.iter().next().copied();
}

/// Start a scheduled section with `n` managed threads and the given schedule.
pub fn begin(n: usize, schedule: &[u64]) {
    let s = sched();
    let mut st = s.st.lock().unwrap();
    *st = State::default();
    st.active = true;
    st.expected = n;
    st.schedule = schedule.iter().copied().collect();
}

/// Called by a managed thread first thing; blocks until it is granted its first step.
pub fn enter(t: u64) {
    ME.with(|m| m.set(t));
    let s = sched();
    {
        let mut st = s.st.lock().unwrap();
        st.managed.insert(t);
        st.joined += 1;
    }
    point("start");
}

/// A yield point. No-op on unmanaged threads or outside a scheduled section.
pub fn point(site: &str) {
    let t = ME.with(|m| m.get());
    if t == 0 {
        return;
    }
    let s = sched();
    let mut st = s.st.lock().unwrap();
    if !st.active || !st.managed.contains(&t) {
        return;
    }
    st.log.push((t, site.to_string()));
    st.waiting.insert(t);
    if st.current == Some(t) {
        st.current = None;
    }
    pick(&mut st);
    s.cv.notify_all();
    let mut waited = 0u32;
    while st.current != Some(t) {
        let (g, to) = s.cv.wait_timeout(st, Duration::from_millis(50)).unwrap();
        st = g;
        if to.timed_out() {
            waited += 1;
            pick(&mut st);
            s.cv.notify_all();
            if waited > 100 {
                // 5 s without a grant: the current thread is blocked outside a point (e.g. on a real lock)
                st.stalled = true;
                st.active = false;
                s.cv.notify_all();
                return;
            }
        }
        if !st.active {
            return;
        }
    }
    st.waiting.remove(&t);
}

/// Called by a managed thread when it is done.
pub fn leave() {
    let t = ME.with(|m| m.get());
    ME.with(|m| m.set(0));
    let s = sched();
    let mut st = s.st.lock().unwrap();
    st.managed.remove(&t);
    st.waiting.remove(&t);
    if st.current == Some(t) {
        st.current = None;
    }
    st.log.push((t, "end".to_string()));
    pick(&mut st);
    s.cv.notify_all();
}

/// End the section: returns the announcement log and whether the run stalled.
pub fn end() -> (Vec<(u64, String)>, bool) {
    let s = sched();
    let mut st = s.st.lock().unwrap();
    st.active = false;
    s.cv.notify_all();
    (std::mem::take(&mut st.log), st.stalled)
}
