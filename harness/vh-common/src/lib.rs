//! Shared pieces of the conformance harness: ndjson trace I/O and small helpers.
//! Every driver binary reads its cases/behaviours from `VH_IN` (ndjson produced by TLC or by the
//! python tooling) and writes one ndjson line per specification action to `VH_OUT`.

use serde_json::Value;
use std::fs::File;
use std::io::{BufRead, BufReader, BufWriter, Write};
use std::sync::Mutex;

pub use serde_json::{json, Map};

pub struct TraceOut {
    w: Mutex<BufWriter<Box<dyn Write + Send>>>,
}

impl TraceOut {
    pub fn from_env() -> TraceOut {
        match std::env::var("VH_OUT") {
            Ok(p) if p != "-" => {
                let f = File::create(&p).unwrap_or_else(|e| {
                    eprintln!("vh: cannot create {}: {}", p, e);
                    std::process::exit(2)
                });
                TraceOut { w: Mutex::new(BufWriter::new(Box::new(f))) }
            }
            _ => TraceOut { w: Mutex::new(BufWriter::new(Box::new(std::io::stdout()))) },
        }
    }
    pub fn append_env() -> TraceOut {
        match std::env::var("VH_OUT") {
            Ok(p) if p != "-" => {
                let f = std::fs::OpenOptions::new().create(true).append(true).open(&p).unwrap_or_else(|e| {
                    eprintln!("vh: cannot open {}: {}", p, e);
                    std::process::exit(2)
                });
                TraceOut { w: Mutex::new(BufWriter::new(Box::new(f))) }
            }
            _ => TraceOut { w: Mutex::new(BufWriter::new(Box::new(std::io::stdout()))) },
        }
    }
    pub fn emit(&self, v: Value) {
        let mut w = self.w.lock().unwrap_or_else(|e| e.into_inner());
        serde_json::to_writer(&mut *w, &v).unwrap();
        w.write_all(b"\n").unwrap();
    }
    pub fn flush(&self) {
        let mut w = self.w.lock().unwrap_or_else(|e| e.into_inner());
        w.flush().unwrap();
    }
}

impl Drop for TraceOut {
    fn drop(&mut self) {
        self.flush();
    }
}

/// Read the ndjson input named by `VH_IN` (one JSON value per line).
pub fn read_input() -> Vec<Value> {
    let p = std::env::var("VH_IN").unwrap_or_else(|_| {
        eprintln!("vh: VH_IN not set");
        std::process::exit(2)
    });
    read_ndjson(&p)
}

pub fn read_ndjson(p: &str) -> Vec<Value> {
    let f = File::open(p).unwrap_or_else(|e| {
        eprintln!("vh: cannot open {}: {}", p, e);
        std::process::exit(2)
    });
    BufReader::new(f)
        .lines()
        .map(|l| l.unwrap())
        .filter(|l| !l.trim().is_empty())
        .map(|l| serde_json::from_str(&l).unwrap_or_else(|e| {
            eprintln!("vh: bad json line {:?}: {}", l, e);
            std::process::exit(2)
        }))
        .collect()
}

pub fn seed() -> u64 {
    std::env::var("VERIF_SEED").ok().and_then(|s| s.parse().ok()).unwrap_or(1)
}

/// Run `f`, turning a panic into `Err(message)`: a panic in the code under test is data.
pub fn catch<R>(f: impl FnOnce() -> R) -> Result<R, String> {
    match std::panic::catch_unwind(std::panic::AssertUnwindSafe(f)) {
        Ok(r) => Ok(r),
        Err(p) => Err(if let Some(s) = p.downcast_ref::<&str>() {
            s.to_string()
        } else if let Some(s) = p.downcast_ref::<String>() {
            s.clone()
        } else {
            "<non-string panic>".to_string()
        }),
    }
}

pub fn quiet_panics() {
    std::panic::set_hook(Box::new(|_| {}));
}

pub mod rec;
pub mod runner;
pub mod workers;
pub mod fbuild;
pub mod pool;
pub mod sched;

/// a waker that does nothing (manual single polls)
pub fn noop_waker() -> std::task::Waker {
    use std::task::{RawWaker, RawWakerVTable, Waker};
    fn clone(_: *const ()) -> RawWaker {
        RawWaker::new(std::ptr::null(), &VT)
    }
    fn noop(_: *const ()) {}
    static VT: RawWakerVTable = RawWakerVTable::new(clone, noop, noop, noop);
    unsafe { Waker::from_raw(RawWaker::new(std::ptr::null(), &VT)) }
}
