//! One OS process per behaviour: the callsite registry, MAX_LEVEL, the global default and the `log`
//! logger are process-global and cannot be reset. The parent re-executes its own binary with
//! `VH_CHILD=1`, feeds one behaviour (a JSON value) on stdin and collects the child's ndjson trace
//! from stdout. The concatenated trace starts every behaviour with a `reset` line.
use serde_json::{json, Value};
use std::io::{Read, Write};
use std::process::{Command, Stdio};
use std::sync::atomic::{AtomicUsize, Ordering};
use std::sync::{Arc, Mutex};

pub fn is_child() -> bool {
    std::env::var("VH_CHILD").is_ok()
}

/// In the child: read the behaviour from stdin.
pub fn child_input() -> Value {
    let mut s = String::new();
    std::io::stdin().read_to_string(&mut s).unwrap();
    serde_json::from_str(&s).unwrap()
}

/// In the child: print one trace line.
pub fn child_emit(v: Value) {
    let out = std::io::stdout();
    let mut l = out.lock();
    serde_json::to_writer(&mut l, &v).unwrap();
    l.write_all(b"\n").unwrap();
    l.flush().unwrap();
}

/// In the parent: run every behaviour of `VH_IN` in its own child, in parallel, and write the
/// concatenation to `VH_OUT`. `reset_of` builds the reset line from the behaviour.
pub fn run_all(reset_of: fn(usize, &Value) -> Value) {
    let behs = crate::read_input();
    let n = behs.len();
    let behs = Arc::new(behs);
    let results: Arc<Mutex<Vec<Option<String>>>> = Arc::new(Mutex::new(vec![None; n]));
    let next = Arc::new(AtomicUsize::new(0));
    let jobs = std::env::var("VH_JOBS").ok().and_then(|s| s.parse().ok()).unwrap_or(12usize);
    let exe = std::env::current_exe().unwrap();
    let args: Vec<String> = std::env::args().skip(1).collect();
    let mut hs = vec![];
    for _ in 0..jobs {
        let (behs, results, next, exe, args) = (behs.clone(), results.clone(), next.clone(), exe.clone(), args.clone());
        hs.push(std::thread::spawn(move || loop {
            let i = next.fetch_add(1, Ordering::SeqCst);
            if i >= behs.len() {
                break;
            }
            let mut ch = Command::new(&exe)
                .args(&args)
                .env("VH_CHILD", "1")
                .stdin(Stdio::piped())
                .stdout(Stdio::piped())
                .stderr(Stdio::null())
                .spawn()
                .unwrap();
            let input = serde_json::to_string(&behs[i]).unwrap();
            let mut stdin = ch.stdin.take().unwrap();
            let w = std::thread::spawn(move || {
                let _ = stdin.write_all(input.as_bytes());
            });
            let mut out = String::new();
            ch.stdout.take().unwrap().read_to_string(&mut out).unwrap();
            let _ = w.join();
            let st = ch.wait().unwrap();
            if !st.success() {
                out.push_str(&serde_json::to_string(&json!({"ev": "crash", "status": format!("{:?}", st)})).unwrap());
                out.push('\n');
            }
            results.lock().unwrap()[i] = Some(out);
        }));
    }
    for h in hs {
        h.join().unwrap();
    }
    let out = crate::TraceOut::from_env();
    let results = results.lock().unwrap();
    for i in 0..n {
        out.emit(reset_of(i, &behs[i]));
        for l in results[i].as_ref().unwrap().lines() {
            if let Ok(v) = serde_json::from_str::<Value>(l) {
                out.emit(v);
            }
        }
    }
}
