//! One OS process per behaviour: the callsite registry, MAX_LEVEL, the global default and the `log`
//! logger are process-global and cannot be reset. The parent re-executes its own binary with
//! `VH_CHILD=1`, feeds one behaviour (a JSON value) on stdin and collects the child's ndjson trace
//! from stdout. The concatenated trace starts every behaviour with a `reset` line.
use serde_json::{json, Value};
use std::io::{Read, Write};
use std::process::{Command, Stdio};
use std::sync::atomic::{AtomicUsize, Ordering};
use std::sync::{Arc, Mutex};

pub fn is_child() -> bool {
    std::env::var("VH_CHILD").is_ok()
}

/// In the child: read the behaviour from stdin.
pub fn child_input() -> Value {
    let mut s = String::new();
    std::io::stdin().read_to_string(&mut s).unwrap();
    serde_json::from_str(&s).unwrap()
}

/// In the child: print one trace line.
pub fn child_emit(v: Value) {
    let out = std::io::stdout();
    let mut l = out.lock();
    serde_json::to_writer(&mut l, &v).unwrap();
    l.write_all(b"\n").unwrap();
    l.flush().unwrap();
}

/// In the parent: run every behaviour of `VH_IN` in its own child, in parallel, and write the
/// concatenation to `VH_OUT`. `reset_of` builds the reset line from the behaviour.
pub fn run_all(reset_of: fn(usize, &Value) -> Value) {
    let behs = crate::read_input();
    let n = behs.len();
    let behs = Arc::new(behs);
    let results: Arc<Mutex<Vec<Option<String>>>> = Arc::new(Mutex::new(vec![None; n]));
    let next = Arc::new(AtomicUsize::new(0));
    let jobs = std::env::var("VH_JOBS").ok().and_then(|s| s.parse().ok()).unwrap_or(12usize);
    let exe = std::env::current_exe().unwrap();
    let args: Vec<String> = std::env::args().skip(1).collect();
    let mut hs = vec![];
    for _ in 0..jobs {
        let (behs, results, next, exe, args) = (behs.clone(), results.clone(), next.clone(), exe.clone(), args.clone());
        hs.push(std::thread::spawn(move || loop {
            let i = next.fetch_add(1, Ordering::SeqCst);
            if i >= behs.len() {
                break;
            }
            let mut ch = Command::new(&exe)
                .args(&args)
                .env("VH_CHILD", "1")
                .stdin(Stdio::piped())
                .stdout(Stdio::piped())
                .stderr(Stdio::null())
                .spawn()
                .unwrap();
            let input = serde_json::to_string(&behs[i]).unwrap();
            let mut stdin = ch.stdin.take().unwrap();
            let w = std::thread::spawn(move || {
                let _ = stdin.write_all(input.as_bytes());
            });
            // a behaviour that does not end (code under test that deadlocks) is data, not a tool failure: the child is killed
            // after VH_CHILD_TIMEOUT seconds and its trace ends with a crash line saying so
            let hung = Arc::new(std::sync::atomic::AtomicBool::new(false));
            let (pid, hung2) = (ch.id(), hung.clone());
            let limit = std::env::var("VH_CHILD_TIMEOUT").ok().and_then(|s| s.parse().ok()).unwrap_or(60u64);
            let (done_tx, done_rx) = std::sync::mpsc::channel::<()>();
            let wd = std::thread::spawn(move || {
                if let Err(std::sync::mpsc::RecvTimeoutError::Timeout) = done_rx.recv_timeout(std::time::Duration::from_secs(limit)) {
                    hung2.store(true, Ordering::SeqCst);
                    let _ = Command::new("kill").arg("-9").arg(pid.to_string()).status();
                }
            });
            let mut out = String::new();
            let _ = ch.stdout.take().unwrap().read_to_string(&mut out);
            let _ = w.join();
            let st = ch.wait().unwrap();
            let _ = done_tx.send(());
            let _ = wd.join();
            if !out.is_empty() && !out.ends_with('\n') {
                out.push('\n');
            }
            if !st.success() {
                out.push_str(&serde_json::to_string(&json!({"ev": "crash", "hang": hung.load(Ordering::SeqCst), "status": format!("{:?}", st)})).unwrap());
                out.push('\n');
            }
            results.lock().unwrap()[i] = Some(out);
        }));
    }
    for h in hs {
        h.join().unwrap();
    }
    let out = crate::TraceOut::from_env();
    let results = results.lock().unwrap();
    for i in 0..n {
        out.emit(reset_of(i, &behs[i]));
        for l in results[i].as_ref().unwrap().lines() {
            if let Ok(v) = serde_json::from_str::<Value>(l) {
                out.emit(v);
            }
        }
    }
}
