#[doc(hidden)]
pub mod __private229 {
    #[doc(hidden)]
    pub use crate::private::*;
}
