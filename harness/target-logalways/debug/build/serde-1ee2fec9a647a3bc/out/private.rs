#[doc(hidden)]
pub mod __private229 {
    #[doc(hidden)]
    pub use crate::private::*;
}
use serde_core::__private229 as serde_core_private;
