// F1: thread caches "no collector" before global default exists.
use std::sync::{Arc, atomic::{AtomicUsize, Ordering}};
use tracing_core::{span, Event, Metadata, Collect, Dispatch, dispatch};
struct Count(Arc<AtomicUsize>);
impl Collect for Count {
    fn enabled(&self, _: &Metadata<'_>) -> bool { true }
    fn new_span(&self, _: &span::Attributes<'_>) -> span::Id { span::Id::from_u64(1) }
    fn record(&self, _: &span::Id, _: &span::Record<'_>) {}
    fn record_follows_from(&self, _: &span::Id, _: &span::Id) {}
    fn event(&self, _: &Event<'_>) { self.0.fetch_add(1, Ordering::SeqCst); }
    fn enter(&self, _: &span::Id) {}
    fn exit(&self, _: &span::Id) {}
    fn current_span(&self) -> span::Current { span::Current::none() }
}
fn main() {
    let scoped = Arc::new(AtomicUsize::new(0));
    let global = Arc::new(AtomicUsize::new(0));
    // main thread: use a scoped default and drop it BEFORE the global exists
    {
        let _g = dispatch::set_default(&Dispatch::new(Count(scoped.clone())));
        tracing::info!("to scoped");
    }
    // another thread holds a scope open so SCOPED_COUNT > 0
    let (tx, rx) = std::sync::mpsc::channel::<()>();
    let (tx2, rx2) = std::sync::mpsc::channel::<()>();
    let other = Arc::new(AtomicUsize::new(0));
    let o2 = other.clone();
    let h = std::thread::spawn(move || {
        let _g = dispatch::set_default(&Dispatch::new(Count(o2)));
        tx2.send(()).unwrap();
        rx.recv().unwrap();
    });
    rx2.recv().unwrap();
    dispatch::set_global_default(Dispatch::new(Count(global.clone()))).unwrap();
    tracing::info!("should go to global");
    println!("scoped={} global={} (expected global=1)", scoped.load(Ordering::SeqCst), global.load(Ordering::SeqCst));
    tx.send(()).unwrap();
    h.join().unwrap();
    tracing::info!("after other thread's scope closed");
    println!("global={} (expected 2)", global.load(Ordering::SeqCst));
}
