use std::sync::{Arc, Mutex};
use tracing_subscriber::{prelude::*, filter::LevelFilter, registry::LookupSpan, subscribe::Context, Subscribe, Registry};
use tracing_core::{Collect, Event, Metadata, Interest};
#[derive(Clone)]
struct Rec(&'static str, Arc<Mutex<Vec<String>>>, Option<bool>);
impl<C: Collect + for<'a> LookupSpan<'a>> Subscribe<C> for Rec {
    fn register_callsite(&self, _: &'static Metadata<'static>) -> Interest {
        match self.2 { None => Interest::always(), Some(true) => Interest::always(), Some(false) => Interest::never() }
    }
    fn enabled(&self, _: &Metadata<'_>, _: Context<'_, C>) -> bool { self.2.unwrap_or(true) }
    fn on_event(&self, e: &Event<'_>, _: Context<'_, C>) {
        self.1.lock().unwrap().push(format!("{}: event {}", self.0, e.metadata().level()));
    }
}
type BoxS = Box<dyn Subscribe<Registry> + Send + Sync>;
fn main() {
    let log = Arc::new(Mutex::new(Vec::new()));
    println!("== rec + empty vec");
    let c = tracing_subscriber::registry().with(Rec("rec", log.clone(), None)).with(Vec::<Rec>::new());
    println!("hint={:?}", c.max_level_hint());
    tracing::collect::with_default(c, || { tracing::info!("x"); });
    println!("{:?}", log.lock().unwrap().drain(..).collect::<Vec<_>>());
    println!("== empty vec + rec (vec inner)");
    let c = tracing_subscriber::registry().with(Vec::<Rec>::new()).with(Rec("rec", log.clone(), None));
    println!("hint={:?}", c.max_level_hint());
    tracing::collect::with_default(c, || { tracing::info!("x"); });
    println!("{:?}", log.lock().unwrap().drain(..).collect::<Vec<_>>());
    println!("== rec + None");
    let c = tracing_subscriber::registry().with(Rec("rec", log.clone(), None)).with(None::<Rec>);
    println!("hint={:?}", c.max_level_hint());
    tracing::collect::with_default(c, || { tracing::info!("x"); });
    println!("{:?}", log.lock().unwrap().drain(..).collect::<Vec<_>>());
    println!("== vec[never, always]");
    let v: Vec<BoxS> = vec![Box::new(Rec("no", log.clone(), Some(false))), Box::new(Rec("yes", log.clone(), Some(true)))];
    let c = tracing_subscriber::registry().with(v);
    tracing::collect::with_default(c, || { tracing::info!("x"); });
    println!("{:?}", log.lock().unwrap().drain(..).collect::<Vec<_>>());
    println!("== layered(never, always)");
    let c = tracing_subscriber::registry().with(Rec("no", log.clone(), Some(false))).with(Rec("yes", log.clone(), Some(true)));
    tracing::collect::with_default(c, || { tracing::info!("x"); });
    println!("{:?}", log.lock().unwrap().drain(..).collect::<Vec<_>>());
    println!("== rec + vec[LevelFilter::DEBUG] emits debug");
    let c = tracing_subscriber::registry().with(Rec("rec", log.clone(), None)).with(vec![LevelFilter::DEBUG]);
    println!("hint={:?}", c.max_level_hint());
    tracing::collect::with_default(c, || { tracing::debug!("x"); tracing::trace!("y"); });
    println!("{:?}", log.lock().unwrap().drain(..).collect::<Vec<_>>());
}
