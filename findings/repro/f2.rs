// F2: span exited / dropped while a different registry is the thread default
use std::sync::{Arc, Mutex};
use tracing_subscriber::{prelude::*, registry::LookupSpan, subscribe::Context, Subscribe};
use tracing_core::{span, Collect, Dispatch, dispatch};
#[derive(Clone)]
struct Rec(&'static str, Arc<Mutex<Vec<String>>>);
impl<C: Collect + for<'a> LookupSpan<'a>> Subscribe<C> for Rec {
    fn on_new_span(&self, a: &span::Attributes<'_>, id: &span::Id, _: Context<'_, C>) {
        self.1.lock().unwrap().push(format!("{}: new {} id={}", self.0, a.metadata().name(), id.into_u64()));
    }
    fn on_close(&self, id: span::Id, ctx: Context<'_, C>) {
        let name = ctx.span(&id).map(|s| s.name()).unwrap_or("<gone>");
        self.1.lock().unwrap().push(format!("{}: close {} id={}", self.0, name, id.into_u64()));
    }
}
fn main() {
    let log = Arc::new(Mutex::new(Vec::new()));
    let a = Dispatch::new(tracing_subscriber::registry().with(Rec("A", log.clone())));
    let b = Dispatch::new(tracing_subscriber::registry().with(Rec("B", log.clone())));
    // span b1 lives in registry B with id 1
    let b1 = dispatch::with_default(&b, || tracing::info_span!("b1"));
    // span a1 lives in registry A with id 1; enter under A
    let a1 = dispatch::with_default(&a, || tracing::info_span!("a1"));
    let r = std::panic::catch_unwind(std::panic::AssertUnwindSafe(|| {
        let _ga = dispatch::set_default(&a);
        let entered = a1.enter();
        // now switch default to B and exit a1
        let _gb = dispatch::set_default(&b);
        drop(entered);
    }));
    println!("panic={:?}", r.is_err());
    for l in log.lock().unwrap().iter() { println!("{}", l); }
    println!("-- now drop handles");
    drop(a1);
    for l in log.lock().unwrap().iter() { println!("{}", l); }
    println!("-- b1 still held by user: is it alive in B? {:?}", b.downcast_ref::<tracing_subscriber::subscribe::Layered<Rec, tracing_subscriber::Registry>>().map(|l| l.span(&b1.id().unwrap()).is_some()));
    let r = std::panic::catch_unwind(std::panic::AssertUnwindSafe(|| drop(b1)));
    println!("drop b1 panicked={:?}", r.is_err());
    for l in log.lock().unwrap().iter() { println!("{}", l); }
}
