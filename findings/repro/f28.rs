//! F28 (C08 / C07): a `Vec` of subscribers that contains an `Option::None` next to real subscribers answers the
//! "are you an absent subscriber?" query (`NoneLayerMarker`, found by `find_map` over its elements).  Layered above
//! another absent subscriber the stack then publishes the hint `OFF`, and the real subscribers in the `Vec` never see
//! anything.  Same mechanism as F17 (there the marker leaks through an `and_then` tree).
use std::sync::atomic::{AtomicUsize, Ordering};
use std::sync::Arc;
use tracing_core::Collect;
use tracing_subscriber::{prelude::*, subscribe::Context, Subscribe};

struct Count(Arc<AtomicUsize>);
impl<C: Collect> Subscribe<C> for Count {
    fn on_event(&self, _: &tracing_core::Event<'_>, _: Context<'_, C>) {
        self.0.fetch_add(1, Ordering::SeqCst);
    }
}
type Boxed = Box<dyn Subscribe<tracing_subscriber::subscribe::Layered<Option<Count>, tracing_subscriber::Registry>> + Send + Sync>;

fn main() {
    let n = Arc::new(AtomicUsize::new(0));
    let items: Vec<Boxed> = vec![Box::new(Count(n.clone())), Box::new(None::<Count>)];
    let stack = tracing_subscriber::registry().with(None::<Count>).with(items);
    let hint = stack.max_level_hint();
    tracing::collect::with_default(stack, || tracing::info!("hello"));
    println!("published hint = {:?}, events seen by the subscriber inside the Vec = {} (expected 1)", hint, n.load(Ordering::SeqCst));
    if n.load(Ordering::SeqCst) != 1 {
        std::process::exit(1);
    }
}
