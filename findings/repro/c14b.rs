use std::sync::{Arc, Mutex};
use std::io;
#[derive(Clone)]
struct Sink(Arc<Mutex<Vec<u8>>>);
impl io::Write for Sink {
    fn write(&mut self, b: &[u8]) -> io::Result<usize> { self.0.lock().unwrap().extend_from_slice(b); Ok(b.len()) }
    fn flush(&mut self) -> io::Result<()> { Ok(()) }
}
fn main() {
    for json in [true, false] {
        let out = Arc::new(Mutex::new(Vec::new()));
        let w = out.clone();
        let b = tracing_subscriber::fmt().with_ansi(false).without_time().with_writer(move || Sink(w.clone()));
        let run = || {
            let root = tracing::info_span!("root", r = 1);
            let leaf = tracing::info_span!(parent: &root, "leaf", l = 2);
            let other = tracing::info_span!("other", o = 3);
            tracing::info!(parent: &leaf, "explicit parent, nothing entered");
            let _e = other.enter();
            tracing::info!(parent: &leaf, "explicit parent, other entered");
            tracing::info!(parent: None, "explicit root, other entered");
        };
        if json { tracing::collect::with_default(b.json().finish(), run) } else { tracing::collect::with_default(b.finish(), run) }
        print!("{}", String::from_utf8_lossy(&out.lock().unwrap()));
    }
}
