// F3: enabled! probe leaks per-layer filter state
use std::sync::{Arc, Mutex};
use tracing_subscriber::{prelude::*, filter::LevelFilter, registry::LookupSpan, subscribe::Context, Subscribe};
use tracing_core::{Collect, Event};
#[derive(Clone)]
struct Rec(&'static str, Arc<Mutex<Vec<String>>>);
impl<C: Collect + for<'a> LookupSpan<'a>> Subscribe<C> for Rec {
    fn on_event(&self, e: &Event<'_>, _: Context<'_, C>) {
        self.1.lock().unwrap().push(format!("{}: event {} {}", self.0, e.metadata().level(), e.metadata().name()));
    }
}
fn main() {
    let log = Arc::new(Mutex::new(Vec::new()));
    let c = tracing_subscriber::registry()
        .with(Rec("info-layer", log.clone()).with_filter(LevelFilter::INFO))
        .with(Rec("debug-layer", log.clone()).with_filter(LevelFilter::DEBUG));
    let variant = std::env::args().nth(1).unwrap_or_default();
    tracing::collect::with_default(c, || {
        if variant == "probe" {
            let e = tracing::enabled!(tracing::Level::DEBUG);
            println!("probe DEBUG enabled = {}", e);
        }
        tracing::info!("hello");   // both layers must get it
    });
    for l in log.lock().unwrap().iter() { println!("{}", l); }
}
