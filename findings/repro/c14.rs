use std::sync::{Arc, Mutex};
use std::io;
#[derive(Clone)]
struct Sink(Arc<Mutex<Vec<u8>>>);
impl io::Write for Sink {
    fn write(&mut self, b: &[u8]) -> io::Result<usize> { self.0.lock().unwrap().extend_from_slice(b); Ok(b.len()) }
    fn flush(&mut self) -> io::Result<()> { Ok(()) }
}
fn main() {
    let out = Arc::new(Mutex::new(Vec::new()));
    let w = out.clone();
    let c = tracing_subscriber::fmt().json().without_time().with_writer(move || Sink(w.clone())).finish();
    tracing::collect::with_default(c, || {
        let span = tracing::info_span!("s", "we\"ird" = 1, later = tracing::field::Empty, later2 = tracing::field::Empty, s = "a\u{2028}b\"\\\n");
        let _e = span.enter();
        tracing::info!("one");
        span.record("later", 2);
        tracing::info!("two");
        span.record("later2", f64::NAN);
        tracing::info!(x = f64::INFINITY, y = u128::MAX, z = i64::MIN, "three");
        let sp2 = tracing::info_span!("plain", a = tracing::field::Empty, b = tracing::field::Empty);
        sp2.record("a", 1); sp2.record("b", "x\"y"); sp2.record("a", 3);
        let _e2 = sp2.enter();
        tracing::info!("four");
    });
    print!("{}", String::from_utf8_lossy(&out.lock().unwrap()));
}
