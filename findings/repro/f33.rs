//! F33 (C13): the last handle of a span is dropped while the span is entered (collector-level enter / exit, as
//! instrumentation that manages span ids itself does); the exit then closes the span. `Registry::exit` closes and removes the
//! span - through the whole stack, so `on_close` runs - BEFORE `Layered::exit` calls the subscribers' `on_exit`; the fmt
//! subscriber's `on_exit` `expect`s the span: with span events EXIT (or CLOSE with timing) the exit panics in the application.
use std::io::Write;
use std::sync::{Arc, Mutex};
use tracing_subscriber::fmt::format::FmtSpan;
use tracing_subscriber::prelude::*;

#[derive(Clone)]
struct Buf(Arc<Mutex<Vec<u8>>>);
impl Write for Buf {
    fn write(&mut self, b: &[u8]) -> std::io::Result<usize> {
        self.0.lock().unwrap().extend_from_slice(b);
        Ok(b.len())
    }
    fn flush(&mut self) -> std::io::Result<()> {
        Ok(())
    }
}

fn main() {
    let buf = Buf(Arc::new(Mutex::new(vec![])));
    let b2 = buf.clone();
    let layer = tracing_subscriber::fmt::subscriber().with_ansi(false).without_time().with_span_events(FmtSpan::EXIT | FmtSpan::CLOSE).with_writer(move || b2.clone());
    let d = tracing_core::Dispatch::new(tracing_subscriber::registry().with(layer));
    let r = std::panic::catch_unwind(std::panic::AssertUnwindSafe(|| {
        tracing_core::dispatch::with_default(&d, || {
            let span = tracing::info_span!("work");
            let id = span.id().unwrap();
            d.enter(&id);
            drop(span); // the span stays open: it is entered
            d.exit(&id); // ... and closes here
        })
    }));
    println!("exit panicked: {} (expected false); written:\n{}", r.is_err(), String::from_utf8_lossy(&buf.0.lock().unwrap()));
}
