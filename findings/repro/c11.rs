use std::sync::{Arc, Mutex};
use tracing_subscriber::{prelude::*, filter::{Targets, EnvFilter}, registry::LookupSpan, subscribe::Context, Subscribe};
use tracing_core::{span, Collect, Event};
#[derive(Clone)]
struct Rec(&'static str, Arc<Mutex<Vec<String>>>);
impl<C: Collect + for<'a> LookupSpan<'a>> Subscribe<C> for Rec {
    fn on_new_span(&self, a: &span::Attributes<'_>, _: &span::Id, _: Context<'_, C>) {
        self.1.lock().unwrap().push(format!("{}: span {} {}", self.0, a.metadata().level(), a.metadata().name()));
    }
    fn on_event(&self, e: &Event<'_>, _: Context<'_, C>) {
        self.1.lock().unwrap().push(format!("{}: event {} {}", self.0, e.metadata().level(), e.metadata().target()));
    }
}
fn main() {
    let log = Arc::new(Mutex::new(Vec::new()));
    // (e) Targets with a field directive: would_enable vs enabled
    let t: Targets = "app[{x}]=debug".parse().unwrap();
    println!("targets display = {}", t);
    println!("would_enable(app, DEBUG) = {}", t.would_enable("app", &tracing::Level::DEBUG));
    let c = tracing_subscriber::registry().with(Rec("t", log.clone()).with_filter(t.clone()));
    tracing::collect::with_default(c, || {
        tracing::debug!(target: "app", x = 1, "ev with x");
        tracing::debug!(target: "app", "ev without x");
        let _s = tracing::debug_span!(target: "app", "sp");
    });
    println!("{:?}", log.lock().unwrap().drain(..).collect::<Vec<_>>());
    // (d) EnvFilter `[foo]=info`, span foo at DEBUG: interest vs enabled
    for (label, other) in [("alone", false), ("with another collector alive", true)] {
        let _other = if other { Some(tracing_core::Dispatch::new(tracing_subscriber::registry().with(EnvFilter::new("trace")))) } else { None };
        let f = EnvFilter::new("[foo]=info");
        println!("envfilter = {} hint={:?}", f, f.max_level_hint());
        let c = tracing_subscriber::registry().with(Rec("e", log.clone())).with(f);
        tracing::collect::with_default(c, || {
            let s = tracing::debug_span!("foo");
            let _e = s.enter();
            tracing::info!("inside foo");
            tracing::debug!("inside foo debug");
        });
        println!("{}: {:?}", label, log.lock().unwrap().drain(..).collect::<Vec<_>>());
    }
    // round trip
    for s in ["app=debug,app::db=off,warn", "[foo{bar=1}]=trace,x=info", "a[b{c=\"q\"}]=debug", "foo=", "foo=5", "OFF", "app[{x,y}]"] {
        match s.parse::<EnvFilter>() { Ok(f) => { let d = f.to_string(); let f2: Result<EnvFilter,_> = d.parse(); println!("{:?} -> {:?} -> {:?}", s, d, f2.map(|f| f.to_string())); } Err(e) => println!("{:?} -> ERR {}", s, e) }
        match s.parse::<Targets>() { Ok(f) => { let d = f.to_string(); let f2: Result<Targets,_> = d.parse(); println!("   T {:?} -> {:?} -> eq={:?}", s, d, f2.map(|f2| f2 == f)); } Err(e) => println!("   T {:?} -> ERR {}", s, e) }
    }
}
