//! F31 (C11): `EnvFilter::add_directive` files a directive that only names fields (`[{k}]=debug`) as a static directive
//! only, while parsing the same directive string files it as static AND span-scoped.  The same directive set therefore
//! filters differently depending on how the filter was built: inside a span that has the field `k`, a DEBUG event is let
//! through by the parsed filter and rejected by the one built with add_directive.
use std::sync::atomic::{AtomicUsize, Ordering};
use std::sync::Arc;
use tracing_core::Collect;
use tracing_subscriber::{prelude::*, subscribe::Context, EnvFilter, Subscribe};

struct Count(Arc<AtomicUsize>);
impl<C: Collect> Subscribe<C> for Count {
    fn on_event(&self, _: &tracing_core::Event<'_>, _: Context<'_, C>) {
        self.0.fetch_add(1, Ordering::SeqCst);
    }
}
fn run(f: EnvFilter) -> usize {
    let n = Arc::new(AtomicUsize::new(0));
    let c = tracing_subscriber::registry().with(f).with(Count(n.clone()));
    tracing::collect::with_default(c, || {
        let s = tracing::info_span!("work", k = 1);
        let _e = s.enter();
        tracing::debug!("inside a span that has the field k");
    });
    n.load(Ordering::SeqCst)
}
fn main() {
    let parsed = run(EnvFilter::builder().parse("info,[{k}]=debug").unwrap());
    let added = run(EnvFilter::builder().parse("info").unwrap().add_directive("[{k}]=debug".parse().unwrap()));
    println!("DEBUG event inside the span: parsed filter delivered {parsed}, add_directive-built filter delivered {added} (expected equal)");
    if parsed != added {
        std::process::exit(1);
    }
}
