use std::sync::{Arc, Mutex};
use std::io;
#[derive(Clone)]
struct Sink(Arc<Mutex<Vec<Vec<u8>>>>);
impl io::Write for Sink {
    fn write(&mut self, b: &[u8]) -> io::Result<usize> { self.0.lock().unwrap().push(b.to_vec()); Ok(b.len()) }
    fn flush(&mut self) -> io::Result<()> { Ok(()) }
}
struct Boom;
impl std::fmt::Debug for Boom { fn fmt(&self, _: &mut std::fmt::Formatter<'_>) -> std::fmt::Result { panic!("boom") } }
fn main() {
    let writes = Arc::new(Mutex::new(Vec::new()));
    let w = writes.clone();
    let c = tracing_subscriber::fmt().with_ansi(false).without_time().with_writer(move || Sink(w.clone())).finish();
    tracing::collect::with_default(c, || {
        tracing::info!("first");
        let _ = std::panic::catch_unwind(|| { tracing::info!(a = 1, b = ?Boom, "second-aborted"); });
        tracing::info!("third");
    });
    for w in writes.lock().unwrap().iter() { println!("WRITE: {:?}", String::from_utf8_lossy(w)); }
}
