// handle dropped while entered; parent dropped before child; close via exit under a SCOPED default
use std::sync::{Arc, Mutex};
use tracing_subscriber::{prelude::*, registry::LookupSpan, subscribe::Context, Subscribe};
use tracing_core::{span, Collect};
#[derive(Clone)]
struct Rec(Arc<Mutex<Vec<String>>>);
impl<C: Collect + for<'a> LookupSpan<'a>> Subscribe<C> for Rec {
    fn on_close(&self, id: span::Id, ctx: Context<'_, C>) {
        let name = ctx.span(&id).map(|s| s.name()).unwrap_or("<gone>");
        self.0.lock().unwrap().push(format!("close {}", name));
    }
}
fn scenario() {
    let parent = tracing::info_span!("parent");
    let child = tracing::info_span!(parent: &parent, "child");
    drop(parent);                 // parent handle dropped before child; kept alive by child
    let entered = child.entered(); // EnteredSpan owns the handle
    drop(entered);                 // exit, then handle drop -> closes via Span::drop
    let parent = tracing::info_span!("parent2");
    let child = tracing::info_span!(parent: &parent, "child2");
    drop(parent);
    let g = child.clone().entered();
    drop(child);                  // last handle besides the entered one
    let span = g.exit();          // exit: ref from enter released via Registry::exit -> get_default(try_close)
    drop(span);
    // now: handle dropped while entered, closing happens inside Registry::exit
    let parent = tracing::info_span!("parent3");
    let child = tracing::info_span!(parent: &parent, "child3");
    drop(parent);
    let id = child.id().unwrap();
    tracing::dispatch::get_default(|d| { d.enter(&id); });
    drop(child);                  // handle gone, still entered
    tracing::dispatch::get_default(|d| { d.exit(&id); }); // nested get_default, like any layer calling exit? (control)
}
fn scenario_real() {
    // realistic: guard outlives handle via in_scope + moved handle
    let parent = tracing::info_span!("P");
    let child = tracing::info_span!(parent: &parent, "C");
    drop(parent);
    let c2 = child.clone();
    let _e = c2.enter();          // Entered<'_> borrows c2
    drop(child);
    // _e dropped first (exit), then c2 dropped -> close by Span::drop, fine.
}
fn scenario_exit_closes() {
    // the span's LAST reference is the one held by `enter`: Instrumented-like pattern
    let parent = tracing::info_span!("PP");
    let child = tracing::info_span!(parent: &parent, "CC");
    drop(parent);
    let id = child.id().unwrap();
    child.with_collector(|(id, d)| d.enter(id)); // enter through the span's own dispatch (as Span::do_enter does)
    let d = child.with_collector(|(_, d)| d.clone()).unwrap();
    drop(child);                  // handle dropped while entered
    d.exit(&id);                  // as Span::do_exit does: exit through own dispatch, NOT nested in get_default
}
fn main() {
    for (label, scoped) in [("scoped default (with_default)", true), ("global default only", false)] {
        let log = Arc::new(Mutex::new(Vec::new()));
        let c = tracing_subscriber::registry().with(Rec(log.clone()));
        if scoped {
            tracing::collect::with_default(c, || { scenario_real(); scenario_exit_closes(); });
        } else {
            tracing::collect::set_global_default(c).unwrap();
            scenario_real(); scenario_exit_closes();
        }
        println!("{}: {:?}", label, log.lock().unwrap());
    }
}
