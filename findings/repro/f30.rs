//! F30 (C05): a panic (caught) in a layer callback that holds a span's ExtensionsMut poisons the lock stored in the
//! registry slot; the slot is cleared and reused, and the NEXT span that lands in it panics "Mutex poisoned".
use tracing_core::{span, Collect};
use tracing_subscriber::{prelude::*, registry::LookupSpan, subscribe::Context, Subscribe};

struct Marker(u32);
struct L;
impl<C: Collect + for<'a> LookupSpan<'a>> Subscribe<C> for L {
    fn on_new_span(&self, _: &span::Attributes<'_>, id: &span::Id, ctx: Context<'_, C>) {
        let s = ctx.span(id).unwrap();
        s.extensions_mut().insert(Marker(1));
    }
    fn on_record(&self, id: &span::Id, _: &span::Record<'_>, ctx: Context<'_, C>) {
        let s = ctx.span(id).unwrap();
        let mut ext = s.extensions_mut();
        ext.get_mut::<Marker>().unwrap().0 += 1;
        panic!("a layer callback panics while it holds the span's extensions");
    }
}

fn main() {
    std::panic::set_hook(Box::new(|_| {}));
    let d = tracing_core::Dispatch::new(tracing_subscriber::registry().with(L));
    let r = tracing_core::dispatch::with_default(&d, || {
        let a = tracing::info_span!("a", x = tracing::field::Empty);
        let caught = std::panic::catch_unwind(std::panic::AssertUnwindSafe(|| {
            a.record("x", 1);
        }));
        assert!(caught.is_err());
        drop(a); // closes; the slot goes back to the pool
        // an unrelated span that reuses the slot
        std::panic::catch_unwind(|| {
            let b = tracing::info_span!("b");
            drop(b);
        })
    });
    println!("creating an unrelated span afterwards: {}", if r.is_ok() { "ok" } else { "PANICKED" });
    if r.is_err() {
        std::process::exit(1);
    }
}
