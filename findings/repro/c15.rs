use std::io::{self, Write};
use std::sync::{Arc, Mutex, atomic::{AtomicBool, Ordering}};
use std::time::Instant;
struct W { log: Arc<Mutex<Vec<String>>>, fail_flush: Arc<AtomicBool> }
impl Write for W {
    fn write(&mut self, b: &[u8]) -> io::Result<usize> { self.log.lock().unwrap().push(format!("write {:?}", String::from_utf8_lossy(b))); Ok(b.len()) }
    fn flush(&mut self) -> io::Result<()> {
        if self.fail_flush.load(Ordering::SeqCst) { self.log.lock().unwrap().push("flush ERR".into()); Err(io::Error::new(io::ErrorKind::Other, "x")) }
        else { self.log.lock().unwrap().push("flush ok".into()); Ok(()) }
    }
}
impl Drop for W { fn drop(&mut self) { self.log.lock().unwrap().push("writer dropped".into()); } }
fn main() {
    let log = Arc::new(Mutex::new(Vec::new()));
    let ff = Arc::new(AtomicBool::new(false));
    let (mut nb, guard) = tracing_appender::non_blocking::NonBlockingBuilder::default().lossy(false).finish(W { log: log.clone(), fail_flush: ff.clone() });
    nb.write_all(b"l1\n").unwrap();
    std::thread::sleep(std::time::Duration::from_millis(50));
    ff.store(true, Ordering::SeqCst); // the flush in the shutdown batch fails once
    let t = Instant::now();
    drop(guard);
    println!("guard drop took {:?}", t.elapsed());
    for l in log.lock().unwrap().iter() { println!("{}", l); }
    println!("write after drop: {:?}", nb.write_all(b"l2\n").map_err(|e| e.kind()));
    std::thread::sleep(std::time::Duration::from_millis(100));
    println!("-- later");
    for l in log.lock().unwrap().iter() { println!("{}", l); }
}
