//! F27 (C09 / C05): `Dispatch::drop_span` through a boxed or arc'd collector is a no-op.
//! `impl Collect for Box<C>` / `Arc<C>` forward `try_close` but not the deprecated `drop_span`, so the
//! trait's empty default runs: a reference taken with `clone_span` and given back with `drop_span` is
//! leaked and the span never closes.  The same program with the plain collector closes the span.
use std::sync::atomic::{AtomicUsize, Ordering};
use std::sync::Arc;
use tracing_core::{span, Collect, Dispatch};
use tracing_subscriber::{prelude::*, registry::LookupSpan, subscribe::Context, Subscribe};

struct Closes(Arc<AtomicUsize>);
impl<C: Collect + for<'a> LookupSpan<'a>> Subscribe<C> for Closes {
    fn on_close(&self, _: span::Id, _: Context<'_, C>) {
        self.0.fetch_add(1, Ordering::SeqCst);
    }
}

#[allow(deprecated)]
fn run(wrap: &str) -> usize {
    let n = Arc::new(AtomicUsize::new(0));
    let c = tracing_subscriber::registry().with(Closes(n.clone()));
    let d = match wrap {
        "box" => Dispatch::new(Box::new(c) as Box<dyn Collect + Send + Sync>),
        "arc" => Dispatch::new(Arc::new(c)),
        _ => Dispatch::new(c),
    };
    tracing_core::dispatch::with_default(&d, || {
        let span = tracing::info_span!("s");
        let id = span.id().unwrap();
        let raw = d.clone_span(&id); // a second reference
        drop(span); // first reference gone
        d.drop_span(raw); // second reference given back the deprecated way
    });
    n.load(Ordering::SeqCst)
}

fn main() {
    let (plain, boxed, arcd) = (run("plain"), run("box"), run("arc"));
    println!("closes: plain={plain} boxed={boxed} arc={arcd} (expected 1 1 1)");
    if (plain, boxed, arcd) != (1, 1, 1) {
        std::process::exit(1);
    }
}
