use std::sync::{Arc, atomic::{AtomicUsize, Ordering}};
use tracing_subscriber::{prelude::*, Subscribe};
use tracing_core::{Collect, Dispatch, span, Event, Metadata};
#[derive(Clone)]
struct L(Arc<AtomicUsize>);
impl<C: Collect> Subscribe<C> for L {
    fn on_register_dispatch(&self, _: &Dispatch) { self.0.fetch_add(1, Ordering::SeqCst); }
}
struct Col(Arc<AtomicUsize>);
impl Collect for Col {
    fn on_register_dispatch(&self, _: &Dispatch) { self.0.fetch_add(1, Ordering::SeqCst); }
    fn enabled(&self, _: &Metadata<'_>) -> bool { true }
    fn new_span(&self, _: &span::Attributes<'_>) -> span::Id { span::Id::from_u64(1) }
    fn record(&self, _: &span::Id, _: &span::Record<'_>) {}
    fn record_follows_from(&self, _: &span::Id, _: &span::Id) {}
    fn event(&self, _: &Event<'_>) {}
    fn enter(&self, _: &span::Id) {}
    fn exit(&self, _: &span::Id) {}
    fn current_span(&self) -> span::Current { span::Current::none() }
}
fn main() {
    let n = Arc::new(AtomicUsize::new(0));
    let _d = Dispatch::new(tracing_subscriber::registry().with(L(n.clone())));
    println!("layer in Layered: on_register_dispatch calls = {}", n.load(Ordering::SeqCst));
    let n = Arc::new(AtomicUsize::new(0));
    let _d = Dispatch::new(Col(n.clone()));
    println!("plain collector: {}", n.load(Ordering::SeqCst));
    let n = Arc::new(AtomicUsize::new(0));
    let _d = Dispatch::new(Box::new(Col(n.clone())));
    println!("Box<collector>: {}", n.load(Ordering::SeqCst));
    let n = Arc::new(AtomicUsize::new(0));
    let _d = Dispatch::new(Arc::new(Col(n.clone())));
    println!("Arc<collector>: {}", n.load(Ordering::SeqCst));
    let n = Arc::new(AtomicUsize::new(0));
    let m = Arc::new(AtomicUsize::new(0));
    let _d = Dispatch::new(Col(m.clone()).with(L(n.clone())));
    println!("Layered over custom collector: layer={} inner collector={}", n.load(Ordering::SeqCst), m.load(Ordering::SeqCst));
}
