//! F34 (C11): with regular expressions switched off, parsing a directive string that names the same span with the same text
//! value twice panics in debug builds ("invariant violated: Ordering::Equal must imply a.fields == b.fields").
fn main() {
    let r = std::panic::catch_unwind(|| {
        tracing_subscriber::EnvFilter::builder().with_regex(false).parse("[s1{k=abd}]=trace,[s1{k=abd}]=info").map(|f| f.to_string())
    });
    println!("parse panicked: {} (expected false): {:?}", r.is_err(), r.ok());
}
