//! F32 (C05): the last handle of a child span given up by user code inside a collector callback (here a layer's `on_event`)
//! while the collector is a *scoped* default: the child closes, but its reference on the parent is released through
//! `dispatch::get_default`, which is re-entered inside the callback and hands out no collector - the parent never closes.
//! With the same collector as the *global* default (no scoped default anywhere) the parent closes.
use std::sync::{Arc, Mutex};
use tracing::Span;
use tracing_core::{span, Collect, Event};
use tracing_subscriber::{prelude::*, registry::LookupSpan, subscribe::Context, Subscribe};

#[derive(Default)]
struct Holder {
    held: Mutex<Option<Span>>,
    closes: Mutex<Vec<String>>,
}
struct L(Arc<Holder>);
impl<C: Collect + for<'a> LookupSpan<'a>> Subscribe<C> for L {
    fn on_event(&self, _: &Event<'_>, _: Context<'_, C>) {
        // user code reacting to an event: gives up its handle of the child span
        let child = self.0.held.lock().unwrap().take();
        drop(child);
    }
    fn on_close(&self, id: span::Id, ctx: Context<'_, C>) {
        let name = ctx.span(&id).map(|s| s.name().to_string()).unwrap_or_default();
        self.0.closes.lock().unwrap().push(name);
    }
}

fn main() {
    let h = Arc::new(Holder::default());
    let d = tracing_core::Dispatch::new(tracing_subscriber::registry().with(L(h.clone())));
    let pid = tracing_core::dispatch::with_default(&d, || {
        let parent = tracing::info_span!("parent");
        let child = tracing::info_span!(parent: &parent, "child");
        let pid = parent.id().unwrap();
        *h.held.lock().unwrap() = Some(child);
        drop(parent); // the child keeps the parent open
        tracing::info!("the layer drops the child while it handles this event");
        pid
    });
    let reg = d.downcast_ref::<tracing_subscriber::Registry>().unwrap();
    println!("closes reported: {:?}; parent still in registry: {} (expected [\"child\", \"parent\"] and false)", h.closes.lock().unwrap(), reg.span(&pid).is_some());
}
