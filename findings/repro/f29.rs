//! F29 (C05): a span whose last handle is dropped from inside another span's `on_close` is reported closed to the layers
//! but never removed from the registry (the CloseGuard counter of the thread is 2 when the inner close's guard drops, and
//! only the frame that takes it from 1 to 0 clears a slot - the outer span's).
use std::sync::{Arc, Mutex};
use tracing::Span;
use tracing_core::{span, Collect};
use tracing_subscriber::{prelude::*, registry::LookupSpan, subscribe::Context, Subscribe};

#[derive(Default)]
struct Holder {
    held: Mutex<Option<Span>>,
    closes: Mutex<Vec<String>>,
}
struct L(Arc<Holder>);
impl<C: Collect + for<'a> LookupSpan<'a>> Subscribe<C> for L {
    fn on_close(&self, id: span::Id, ctx: Context<'_, C>) {
        let name = ctx.span(&id).map(|s| s.name().to_string()).unwrap_or_default();
        self.0.closes.lock().unwrap().push(name.clone());
        if name == "x" {
            // user code reacting to the close of `x`: gives up its handle of `y`
            let y = self.0.held.lock().unwrap().take();
            drop(y);
        }
    }
}

fn main() {
    let h = Arc::new(Holder::default());
    let d = tracing_core::Dispatch::new(tracing_subscriber::registry().with(L(h.clone())));
    let (xid, yid) = tracing_core::dispatch::with_default(&d, || {
        let x = tracing::info_span!("x");
        let y = tracing::info_span!("y");
        let ids = (x.id().unwrap(), y.id().unwrap());
        *h.held.lock().unwrap() = Some(y);
        drop(x);
        ids
    });
    let reg = d.downcast_ref::<tracing_subscriber::Registry>().unwrap();
    let (x_live, y_live) = (reg.span(&xid).is_some(), reg.span(&yid).is_some());
    println!("closes reported: {:?}; x still in registry: {}; y still in registry: {} (expected false false)", h.closes.lock().unwrap(), x_live, y_live);
    if x_live || y_live {
        std::process::exit(1);
    }
}
